from common import *
import math
from aspire.samplers.smc.minipcn import MiniPCNSMC
from aspire.samplers.mcmc import MiniPCN
from aspire.transforms import CompositeTransform
from aspire.utils import effective_sample_size, logsumexp
dims=2
ll,lp=make(dims)
fl=GaussFlow(dims,sigma=3.0)
tr=CompositeTransform(parameters=["a","b"],prior_bounds={"a":[-10,10],"b":[-10,10]},periodic_parameters=["b"],bounded_to_unbounded=True,bounded_transform="logit",affine_transform=True,xp=np_xp,dtype="float64")
s=MiniPCNSMC(ll,lp,dims,fl,np_xp,parameters=["a","b"],preconditioning_transform=tr)
x0=np.random.default_rng(0).uniform(-5,5,size=(50,2))
z0=s.fit_preconditioning_transform(x0)
z=z0+0.1
for beta in [0.3,1.0]:
    got=s.log_prob(z,beta)
    x,j=tr.inverse(z)
    class S: pass
    from aspire.samples import Samples
    ss=Samples(x)
    exp=(1-beta)*fl.log_prob(x)+beta*(ll(ss)+lp(ss))+j
    print("C05 smc beta",beta,"max diff",np.max(np.abs(got-exp)))
# check jacobian numerically for inverse: log|det dx/dz|
def numjac(f,z,eps=1e-6):
    d=len(z); J=np.zeros((d,d))
    for k in range(d):
        e=np.zeros(d); e[k]=eps
        J[:,k]=(f(z+e)-f(z-e))/(2*eps)
    return J
f=lambda zz: tr.inverse(zz[None,:])[0][0]
errs=[]
for i in range(5):
    J=numjac(f,z[i]); errs.append(abs(math.log(abs(np.linalg.det(J)))-tr.inverse(z[i:i+1])[1][0]))
print("C04 composite inverse logJ vs numeric", max(errs))
# C08/C07/C18 recomputation on a run
s=MiniPCNSMC(ll,lp,dims,GaussFlow(dims,sigma=3.0),np_xp,parameters=["a","b"])
out=s.sample(60,rng=np.random.default_rng(3),sampler_kwargs=dict(n_steps=2),target_efficiency=0.6)
h=s.history
bprev=0.0; tot=0
for t,b in enumerate(h.beta):
    P=h.sample_history[t]
    l=np.asarray(P.log_likelihood+P.log_prior-P.log_q)
    lw=(b-bprev)*l
    r=logsumexp(lw)-math.log(len(l)); tot+=r
    ess=float(np.exp(2*logsumexp(lw)-logsumexp(2*lw)))
    # maximality
    tol=1e-6
    def eff(bb):
        w=(bb-bprev)*l; return float(np.exp(2*logsumexp(w)-logsumexp(2*w)))/len(l)
    print("t",t,"beta",round(b,6),"ratio diff",abs(r-h.log_norm_ratio[t]),"ess diff",abs(ess-h.ess[t]),"eff(b)",round(eff(b),4),"eff(b+2tol)",round(eff(min(1,b+2*tol)),6))
    bprev=b
print("sum diff",abs(tot-float(out.log_evidence)))
