from common import *
from aspire import Aspire
from aspire.samplers.smc.minipcn import MiniPCNSMC
dims=2
calls=[]
ll,lp=make(dims,calls)
s=MiniPCNSMC(ll,lp,dims,GaussFlow(dims,sigma=8.0),np_xp,parameters=["a","b"])
out=s.sample(40,rng=np.random.default_rng(1),sampler_kwargs=dict(n_steps=2),n_final_samples=50)
L=[c for c in calls if c[0]=="L"]
print("L calls",len(L),"all have prior:",all(c[2] for c in L),"sum sizes",sum(c[1] for c in L),"counter",s.n_likelihood_evaluations)
print("order ok:", all(calls[i-1][0]=="P" and calls[i-1][1]==calls[i][1] for i,c in enumerate(calls) if c[0]=="L"))
# C19
class Pool:
    def __init__(self): self.log=[]
    def map(self,f,xs): return map(f,xs)
    def close(self): self.log.append("close")
    def join(self): self.log.append("join")
def llm(s,map_fn=map): return np.zeros(len(s.x))
def lpm(s,map_fn=map): return np.zeros(len(s.x))
a=Aspire(log_likelihood=llm,log_prior=lpm,dims=2,parameters=["a","b"])
p=Pool(); p2=Pool()
try:
    with a.enable_pool(p,parallelize_prior=True):
        with a.auto_checkpoint("x.h5"):
            with a.enable_pool(p2,close_pool=False):
                with a.auto_checkpoint("y.h5",every=3):
                    raise KeyError("boom")
except KeyError: pass
print("restored:",a.log_likelihood is llm, a.log_prior is lpm, hasattr(a,"_checkpoint_defaults"), p.log, p2.log)
