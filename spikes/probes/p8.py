from common import *
import pickle, traceback
import array_api_compat.torch as txp, jax.numpy as jnp, jax, torch
jax.config.update("jax_enable_x64", True)
from aspire.samples import Samples, SMCSamples, BaseSamples
xps={"numpy":np_xp,"torch":txp,"jax":jnp}
N=6
def mk(cls,xp,dt,fields=("log_likelihood","log_prior","log_q")):
    kw={k:np.arange(N)*0.5+i for i,k in enumerate(fields)}
    if cls is SMCSamples: kw["beta"]=0.3
    return cls(np.arange(2*N,dtype=float).reshape(N,2),xp=xp,dtype=dt,parameters=["a","b"],**kw)
def fieldsof(s):
    out={}
    for k in ["x","log_likelihood","log_prior","log_q","log_w","weights"]:
        v=getattr(s,k,None)
        out[k]=None if v is None else np.asarray(v).tolist()
    return out
idxs={"int":2,"slice":slice(1,5,2),"mask":np.array([True,False,True,True,False,False]),"arr":np.array([4,0,0,3]),"list":[1,2]}
for cls in [BaseSamples,Samples,SMCSamples]:
  for xn,xp in xps.items():
    for dt in [None,"float32","float64"]:
        s=mk(cls,xp,dt)
        ref=fieldsof(s)
        for iname,idx in idxs.items():
            try:
                ii = idx
                if iname in("mask","arr"): ii = xp.asarray(idx)
                t=s[ii]
                got=fieldsof(t)
                for k,v in ref.items():
                    exp=None if v is None else np.asarray(v)[idx].tolist()
                    if got[k]!=exp: print(cls.__name__,xn,dt,iname,"FIELD",k,got[k],exp)
                if str(t.x.dtype)!=str(s.x.dtype): print(cls.__name__,xn,dt,iname,"dtype",s.x.dtype,t.x.dtype)
                if type(t.x)!=type(s.x): print(cls.__name__,xn,dt,iname,"ns",type(s.x),type(t.x))
            except Exception as e:
                print(cls.__name__,xn,dt,iname,"FAIL",type(e).__name__,str(e)[:90])
        # concat partition
        try:
            c=cls.concatenate([s[:2],s[2:5],s[5:]])
            if fieldsof(c)["x"]!=ref["x"] or fieldsof(c)["log_q"]!=ref["log_q"]: print(cls.__name__,xn,dt,"concat mismatch")
            if cls is SMCSamples and c.beta!=s.beta: print(cls.__name__,xn,dt,"concat lost beta",c.beta)
            if str(c.x.dtype)!=str(s.x.dtype): print(cls.__name__,xn,dt,"concat dtype",c.x.dtype)
        except Exception as e:
            print(cls.__name__,xn,dt,"concat FAIL",type(e).__name__,str(e)[:90])
        try:
            p=pickle.loads(pickle.dumps(s))
            if fieldsof(p)!=ref: print(cls.__name__,xn,dt,"pickle mismatch")
            if p.xp is not s.xp and getattr(p.xp,'__name__',None)!=getattr(s.xp,'__name__',None): print(cls.__name__,xn,dt,"pickle xp",p.xp,s.xp)
        except Exception as e:
            print(cls.__name__,xn,dt,"pickle FAIL",type(e).__name__,str(e)[:90])
        for flat in [True,False]:
            try:
                d=s.to_dict(flat=flat)
                q=cls.from_dict(d)
                if fieldsof(q)!=ref: print(cls.__name__,xn,dt,"dict mismatch flat",flat)
                if type(q.x)!=type(s.x): print(cls.__name__,xn,dt,"dict ns flat",flat,type(q.x))
            except Exception as e:
                print(cls.__name__,xn,dt,"dict FAIL flat",flat,type(e).__name__,str(e)[:90])
