import sys, warnings, logging
sys.path.insert(0,"/verif/spikes/probes/stubs")
warnings.filterwarnings("ignore")
import numpy as np
import array_api_compat.numpy as np_xp
from aspire.flows.base import Flow
from aspire.transforms import IdentityTransform
class GaussFlow(Flow):
    xp=np_xp
    def __init__(self,dims,mu=0.0,sigma=2.0,seed=0,device=None,data_transform=None,dtype=None):
        super().__init__(dims,device=device,data_transform=data_transform)
        self.mu=mu;self.sigma=sigma;self.g=np.random.default_rng(seed)
    def log_prob(self,x):
        x=np.asarray(x,dtype=float)
        return (-0.5*((x-self.mu)/self.sigma)**2-np.log(self.sigma)-0.5*np.log(2*np.pi)).sum(-1)
    def sample_and_log_prob(self,n):
        x=self.mu+self.sigma*self.g.normal(size=(n,self.dims))
        return x,self.log_prob(x)
    def fit(self,x,**kw):
        from aspire.history import FlowHistory
        return FlowHistory()
def make(dims=2,calls=None):
    def ll(s):
        if calls is not None: calls.append(("L",len(s.x), s.log_prior is not None))
        import array_api_compat
        xp=array_api_compat.array_namespace(s.x)
        return -0.5*xp.sum((s.x-1.0)**2,axis=-1)/0.25
    def lp(s):
        if calls is not None: calls.append(("P",len(s.x)))
        import array_api_compat
        xp=array_api_compat.array_namespace(s.x)
        x=s.x
        inb=xp.all(xp.abs(x)<=10,axis=-1)
        return xp.where(inb,xp.asarray(-dims*np.log(20.0),dtype=x.dtype),xp.asarray(-np.inf,dtype=x.dtype))
    return ll,lp
