from common import *
from aspire.samplers.smc.minipcn import MiniPCNSMC
dims=2
for n_steps in [3,7,10]:
    ll,lp=make(dims)
    s=MiniPCNSMC(ll,lp,dims,GaussFlow(dims),np_xp,parameters=["a","b"])
    out=s.sample(50,n_steps=n_steps,adaptive=False,rng=np.random.default_rng(1),sampler_kwargs=dict(n_steps=2))
    h=s.history
    print("n_steps",n_steps,"iters",len(h.beta),"betas",h.beta[-3:],"len sample_history",len(h.sample_history),"logZ",out.log_evidence, "nlike",s.n_likelihood_evaluations)
# adaptive
ll,lp=make(dims)
s=MiniPCNSMC(ll,lp,dims,GaussFlow(dims),np_xp,parameters=["a","b"])
ck=[]
out=s.sample(50,adaptive=True,rng=np.random.default_rng(1),sampler_kwargs=dict(n_steps=2),checkpoint_callback=lambda st: ck.append(st),checkpoint_every=2,n_final_samples=80)
h=s.history
print("adaptive betas",h.beta,"ck iters",[c["iteration"] for c in ck],"len hist",len(h.sample_history),[len(x.x) for x in h.sample_history], len(out.x))
print({k:len(v) for k,v in h.__dict__.items()})
