import sys; sys.path.insert(0,"/verif/spikes/probes/ep")
from common import *
import os, tempfile, pickle, h5py
from aspire import Aspire
from aspire.samples import Samples
from aspire.flows import get_flow_wrapper
print(get_flow_wrapper("verifstub"))
dims=2
calls=[]
class Boom(Exception): pass
def mk(fault_at=None):
    cnt={"n":0}
    ll0,lp=make(dims)
    def ll(s):
        cnt["n"]+=1
        if fault_at is not None and cnt["n"]==fault_at: raise Boom()
        return ll0(s)
    return ll,lp,cnt
d=tempfile.mkdtemp()
rng=np.random.default_rng(0)
data=Samples(rng.normal(0,3.0,size=(200,dims)))
# reference: count likelihood calls
ll,lp,cnt=mk()
a=Aspire(log_likelihood=ll,log_prior=lp,dims=dims,parameters=["a","b"],flow_backend="verifstub",xp=np_xp)
a.fit(data)
f=os.path.join(d,"ref.h5")
seen=[]
out=a.sample_posterior(n_samples=30,sampler="smc",checkpoint_path=f,checkpoint_every=2,sampler_kwargs=dict(n_steps=2))
ncalls=cnt["n"]; print("likelihood calls",ncalls,"betas",len(a._sampler.history.beta))
res=[]
for k in range(1,ncalls+1):
    ll,lp,cnt=mk(k)
    a=Aspire(log_likelihood=ll,log_prior=lp,dims=dims,parameters=["a","b"],flow_backend="verifstub",xp=np_xp)
    a.fit(data)
    f=os.path.join(d,f"f{k}.h5")
    try:
        a.sample_posterior(n_samples=30,sampler="smc",checkpoint_path=f,checkpoint_every=2,sampler_kwargs=dict(n_steps=2))
        res.append((k,"nofault"))
    except Boom:
        with h5py.File(f) as h:
            keys=sorted(h.keys())
            it=None
            if "checkpoint" in h:
                st=pickle.loads(h["checkpoint"]["state"][...].tobytes()); it=st["iteration"]
                same = a._sampler.last_checkpoint_bytes==h["checkpoint"]["state"][...].tobytes()
            else: same=None
        # loadable?
        ll2,lp2,_=mk()
        r=Aspire.resume_from_file(f,log_likelihood=ll2,log_prior=lp2)
        res.append((k,keys,it,same,len(a._sampler.history.beta) if a._sampler.history else None))
for r in res: print(r)
