import numpy as np
import array_api_compat.numpy as np_xp
from aspire.flows.base import Flow
class StubFlow(Flow):
    xp = np_xp
    def __init__(self, dims, mu=0.0, sigma=2.0, seed=0, device=None, data_transform=None, dtype=None, version=0):
        super().__init__(dims, device=device, data_transform=data_transform)
        self.mu=float(mu); self.sigma=float(sigma); self.seed=seed; self.version=version
        self.g=np.random.default_rng(seed)
    def log_prob(self,x):
        x=np.asarray(x,dtype=float)
        return (-0.5*((x-self.mu)/self.sigma)**2-np.log(self.sigma)-0.5*np.log(2*np.pi)).sum(-1)
    def sample_and_log_prob(self,n):
        x=self.mu+self.sigma*self.g.normal(size=(n,self.dims)); return x,self.log_prob(x)
    def fit(self,x,**kw):
        from aspire.history import FlowHistory
        x=np.asarray(x,dtype=float); self.mu=float(x.mean()); self.sigma=float(x.std()); self.version+=1
        return FlowHistory()
    def save(self,h5,path="flow"):
        g=h5.create_group(path); g.attrs["mu"]=self.mu; g.attrs["sigma"]=self.sigma; g.attrs["version"]=self.version; g.attrs["dims"]=self.dims
    @classmethod
    def load(cls,h5,path="flow"):
        g=h5[path]; return cls(int(g.attrs["dims"]),mu=g.attrs["mu"],sigma=g.attrs["sigma"],version=int(g.attrs["version"]))
