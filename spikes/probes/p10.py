from common import *
import array_api_compat.torch as txp, jax.numpy as jnp, jax, torch
jax.config.update("jax_enable_x64", True)
from aspire.transforms import PeriodicTransform, LogitTransform, ProbitTransform, CompositeTransform
for xp in [np_xp, txp, jnp]:
    t=PeriodicTransform(lower=0.0,upper=1.0,xp=xp,dtype="float64")
    x=xp.asarray([[-1e-20],[-1e-17],[1.0],[2.5],[-0.25]],dtype=t.dtype)
    y,_=t.forward(x)
    print(xp.__name__, np.asarray(y).ravel().tolist())
# from_samples dtype
from aspire.samples import Samples, SMCSamples
s=Samples(np.zeros((3,2)),log_likelihood=np.zeros(3),log_prior=np.zeros(3),log_q=np.zeros(3),dtype="float32")
t=SMCSamples.from_samples(s,xp=np_xp,beta=0.0,dtype="float32")
print("from_samples dtype float32 ->",t.x.dtype,t.dtype)
t=SMCSamples.from_samples(s,xp=np_xp,beta=0.0,dtype=None)
print("from_samples dtype None (src float32) ->",t.x.dtype)
