from common import *
import tempfile, os, h5py, traceback
import array_api_compat.torch as txp, jax.numpy as jnp, jax
jax.config.update("jax_enable_x64", True)
from aspire.samples import Samples, SMCSamples, BaseSamples
from aspire.history import SMCHistory
from aspire.utils import AspireFile
d=tempfile.mkdtemp()
N=4
k=0
for cls in [BaseSamples,Samples,SMCSamples]:
  for xn,xp in {"numpy":np_xp,"torch":txp,"jax":jnp}.items():
    for dt in [None,"float32"]:
      for fields in [(),("log_likelihood",),("log_likelihood","log_prior","log_q")]:
        for flat in [False,True]:
            kw={f:np.arange(N)*0.5+i for i,f in enumerate(fields)}
            if cls is SMCSamples: kw.update(beta=0.3,log_evidence=1.5)
            s=cls(np.arange(2*N,dtype=float).reshape(N,2),xp=xp,dtype=dt,parameters=["a","b"],**kw)
            k+=1; f=os.path.join(d,f"s{k}.h5")
            try:
                with AspireFile(f,"w") as h: s.save(h,flat=flat)
                with AspireFile(f,"r") as h: t=cls.load(h)
                problems=[]
                if type(t.x)!=type(s.x): problems.append(f"ns {type(t.x).__name__}")
                if str(t.x.dtype)!=str(s.x.dtype): problems.append(f"dtype {s.x.dtype}->{t.x.dtype}")
                if t.parameters!=s.parameters: problems.append(f"params {t.parameters}")
                for fn in ["log_likelihood","log_prior","log_q"]:
                    a,b=getattr(s,fn),getattr(t,fn)
                    if (a is None)!=(b is None): problems.append(f"{fn} presence")
                    elif a is not None and not np.allclose(np.asarray(a),np.asarray(b)): problems.append(f"{fn} values")
                if cls is SMCSamples and (t.beta!=s.beta or t.log_evidence!=s.log_evidence): problems.append(f"beta/logZ {t.beta} {t.log_evidence}")
                if problems: print(cls.__name__,xn,dt,fields,"flat" if flat else "nested",problems)
            except Exception as e:
                print(cls.__name__,xn,dt,len(fields),"flat" if flat else "nested","FAIL",type(e).__name__,str(e)[:100])
