from common import *
from aspire.samplers.smc.minipcn import MiniPCNSMC
from aspire.samples import SMCSamples
from aspire.utils import logsumexp
dims=2
ll,lp=make(dims)
fl=GaussFlow(dims,sigma=12.0)   # over-covers prior box [-10,10] => rejections in initial draw
class Spy:
    def __init__(self,g): self.g=g; self.calls=[]
    def choice(self,n,size=None,replace=True,p=None):
        idx=self.g.choice(n,size=size,replace=replace,p=p); self.calls.append((np.array(p),idx)); return idx
    def __getattr__(self,k): return getattr(self.g,k)
spy=Spy(np.random.default_rng(5))
s=MiniPCNSMC(ll,lp,dims,fl,np_xp,parameters=["a","b"])
pre=[]
orig=s.mutate
def mut(particles,beta,n_steps=None):
    pre.append(particles); return orig(particles,beta,n_steps=n_steps)
s.mutate=mut
out=s.sample(50,rng=spy,sampler_kwargs=dict(n_steps=2),target_efficiency=0.7,n_final_samples=70)
h=s.history
print("initial size",len(h.sample_history[0].x),"all finite prior",np.isfinite(h.sample_history[0].log_prior).all())
bad=0
from aspire.samples import Samples
for P in h.sample_history+[out]:
    S=Samples(P.x)
    if not np.allclose(P.log_likelihood,ll(S)) or not np.allclose(P.log_prior,lp(S)): bad+=1
    if P.log_q is not None and not np.allclose(P.log_q,fl.log_prob(P.x)): bad+=1
print("incoherent populations",bad,"of",len(h.sample_history)+1)
bprev=0.0
for t,(b,(p,idx)) in enumerate(zip(h.beta,spy.calls)):
    src=h.sample_history[t]; l=np.asarray(src.log_likelihood+src.log_prior-src.log_q)
    w=np.exp((b-bprev)*l); w/=w.sum()
    R=pre[t]
    rows_ok=np.array_equal(R.x,src.x[idx]) and np.array_equal(R.log_q,src.log_q[idx]) and np.array_equal(R.log_likelihood,src.log_likelihood[idx]) and np.array_equal(R.log_prior,src.log_prior[idx])
    print("t",t,"p max diff",np.max(np.abs(p-w)),"rows copied",rows_ok,"beta",R.beta==b)
    bprev=b
print("choice calls",len(spy.calls),"iterations",len(h.beta))
