from common import *
import torch, array_api_compat.torch as txp
from aspire.transforms import CompositeTransform
t=CompositeTransform(parameters=["a"],prior_bounds={"a":[0.0,1.0]},bounded_to_unbounded=True,bounded_transform="logit",affine_transform=False,xp=txp,dtype="float64")
x=torch.tensor([[0.3],[0.7123456789]],dtype=torch.float64)
y,lj=t.forward(x)
print(y.dtype, lj.dtype, lj.tolist())
import math
u=0.7123456789
print("exact", -math.log(u)-math.log(1-u))
