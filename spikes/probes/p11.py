from common import *
import signal
from aspire.samplers.smc.minipcn import MiniPCNSMC
dims=1
def ll(s): return -0.5*np.sum((np.asarray(s.x))**2,axis=-1)*1e9   # extremely peaked
def lp(s): return np.zeros(len(s.x))
s=MiniPCNSMC(ll,lp,dims,GaussFlow(dims,sigma=1.0),np_xp,parameters=["a"])
class T(Exception): pass
def h(*a): raise T()
signal.signal(signal.SIGALRM,h); signal.alarm(20)
try:
    out=s.sample(30,rng=np.random.default_rng(1),sampler_kwargs=dict(n_steps=1),adaptive=True)
    print("done",len(s.history.beta),s.history.beta[:5],s.history.beta[-3:])
except T:
    b=s.history.beta
    print("TIMEOUT after",len(b),"iterations; betas first",b[:4],"last",b[-3:], "strictly increasing:", all(b[i]<b[i+1] for i in range(len(b)-1)))
