from common import *
import traceback
from aspire.samplers.smc.minipcn import MiniPCNSMC
dims=2
def ll_flat(s): return np.zeros(len(s.x))
ll,lp=make(dims)
class F(GaussFlow):
    pass
# proposal equals posterior-ish: flat likelihood and prior flat, q gaussian narrow => weights vary mildly
s=MiniPCNSMC(ll_flat,lp,dims,GaussFlow(dims,sigma=0.5),np_xp,parameters=["a","b"])
try:
    out=s.sample(40,rng=np.random.default_rng(1),sampler_kwargs=dict(n_steps=2),adaptive=True,max_n_steps=5,target_efficiency=0.1)
    print("ok",s.history.beta)
except Exception as e:
    traceback.print_exc()
