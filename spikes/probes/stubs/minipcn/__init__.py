"""Test double for minipcn: random-walk Metropolis with the same call surface."""
import numpy as np
from types import SimpleNamespace
class Sampler:
    def __init__(self, log_prob_fn, step_fn=None, rng=None, dims=None, target_acceptance_rate=0.234, xp=None, **kw):
        self.log_prob_fn=log_prob_fn; self.rng=rng; self.dims=dims; self.xp=xp
    def sample(self, z0, n_steps=10):
        import sys
        if 'torch' in sys.modules:
            import torch
            with torch.no_grad():
                return self._sample(z0,n_steps)
        return self._sample(z0,n_steps)
    def _sample(self, z0, n_steps=10):
        z=np.asarray(z0,dtype=float).copy()
        lp=np.asarray(self.log_prob_fn(z),dtype=float)
        acc=[]
        chain=[z.copy()]
        for _ in range(n_steps):
            prop=z+0.3*self.rng.normal(size=z.shape)
            lpp=np.asarray(self.log_prob_fn(prop),dtype=float)
            u=np.log(self.rng.uniform(size=len(z)))
            a=u<(lpp-lp)
            z=np.where(a[:,None],prop,z); lp=np.where(a,lpp,lp)
            acc.append(a.mean()); chain.append(z.copy())
        return np.stack(chain), SimpleNamespace(acceptance_rate=np.array(acc))
