import numpy as np
class ArrayRNG:
    def __init__(self, backend="numpy", seed=None):
        self._g=np.random.default_rng(seed)
    def __getattr__(self,k): return getattr(self._g,k)
