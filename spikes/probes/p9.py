from common import *
from aspire import Aspire
dims=2
def run(seed):
    ll,lp=make(dims)
    a=Aspire(log_likelihood=ll,log_prior=lp,dims=dims,parameters=["a","b"],flow=GaussFlow(dims,seed=0),xp=np_xp)
    g=np.random.default_rng(seed)
    out=a.sample_posterior(n_samples=30,sampler="smc",rng=g,sampler_kwargs=dict(n_steps=2))
    return out, a._sampler.rng is g
o1,used1=run(1); o2,used2=run(1)
print("user rng is sampler.rng:",used1,"identical x:",np.array_equal(o1.x,o2.x),"logZ",float(o1.log_evidence),float(o2.log_evidence))
