from common import *
import os, tempfile, h5py, pickle, torch
import array_api_compat.torch as txp
from aspire import Aspire
from aspire.samples import Samples
from aspire.utils import AspireFile
dims=2
ll,lp=make(dims)
rng=np.random.default_rng(0)
a=Aspire(log_likelihood=ll,log_prior=lp,dims=dims,parameters=["a","b"],prior_bounds={"a":[-10,10],"b":[-10,10]},flow_backend="zuko",dtype="float64")
A=Samples(rng.normal(1,0.5,size=(200,dims)),xp=txp,dtype="float64")
B=Samples(rng.normal(-3,0.2,size=(200,dims)),xp=txp,dtype="float64")
d=tempfile.mkdtemp(); f=os.path.join(d,"run.h5")
a.fit(A,n_epochs=1,checkpoint_path=f)
a.fit(B,n_epochs=1,checkpoint_path=f)   # refit without overwrite
x,logq=a.flow.sample_and_log_prob(5)
r=Aspire.resume_from_file(f,log_likelihood=ll,log_prior=lp)
with torch.no_grad():
    print("mem flow log_q", a.flow.log_prob(x).detach().numpy())
    print("file flow log_q", r.flow.log_prob(x).detach().numpy())
