from common import *
import time, torch, jax, jax.numpy as jnp
jax.config.update("jax_enable_x64", True)
from aspire.flows import get_flow_wrapper
from aspire.transforms import FlowTransform
rng=np.random.default_rng(0)
data=rng.uniform(0.2,0.8,size=(300,1))
for backend in ["zuko","flowjax"]:
  for bt in ["logit","probit",None]:
    for dt in ["float64","float32"]:
        t0=time.time()
        F,xp=get_flow_wrapper(backend)
        tr=FlowTransform(parameters=["a"],prior_bounds={"a":[0.0,1.0]},bounded_to_unbounded=bt is not None,bounded_transform=bt or "logit",xp=xp,dtype=dt)
        kw=dict(key=jax.random.key(1)) if backend=="flowjax" else {}
        fl=F(dims=1,device=None,data_transform=tr,dtype=dt,**kw)
        if backend=="zuko": fl.fit(data,n_epochs=3)
        else: fl.fit(data,max_epochs=3)
        x,lq=fl.sample_and_log_prob(200)
        with torch.no_grad():
            lp=fl.log_prob(x)
        d=np.max(np.abs(np.asarray(lq)-np.asarray(lp)))
        xs=np.linspace(1e-4,1-1e-4,20001)[:,None]
        with torch.no_grad():
            dens=np.exp(np.asarray(fl.log_prob(xs if backend=="zuko" else jnp.asarray(xs)),dtype=float))
        integ=np.trapezoid(dens,xs[:,0])
        xn=np.asarray(x)
        print(backend,bt,dt,"max|lq-lp|=%.2e"%d,"integral=%.5f"%integ,"range",xn.min(),xn.max(),"t=%.1f"%(time.time()-t0))
