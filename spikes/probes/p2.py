import numpy as np, warnings, traceback
warnings.filterwarnings("ignore")
import array_api_compat.numpy as np_xp, array_api_compat.torch as torch_xp, jax.numpy as jnp, torch, jax
jax.config.update("jax_enable_x64", True)
from aspire.samples import Samples, SMCSamples, BaseSamples
xps={"numpy":np_xp,"torch":torch_xp,"jax":jnp}
N=4
for cls in [BaseSamples,Samples,SMCSamples]:
  for dt in [None,"float32","float64"]:
    for sn,sxp in xps.items():
        try:
            s=cls(np.arange(8.).reshape(N,2),log_likelihood=np.arange(N)*1.,log_prior=np.zeros(N),log_q=np.ones(N),xp=sxp,dtype=dt)
        except Exception as e:
            print(cls.__name__,dt,sn,"CONSTRUCT FAIL",type(e).__name__,str(e)[:80]); continue
        for tn,txp in xps.items():
            try:
                t=s.to_namespace(txp)
                ok = str(t.x.dtype).split(".")[-1]==str(s.x.dtype).split(".")[-1]
                okv= np.allclose(np.asarray(t.x),np.asarray(s.x)) and t.log_q is not None
                from aspire.utils import determine_backend_name
                okn = determine_backend_name(x=t.x)==tn
                if not(ok and okv and okn): print(cls.__name__,dt,sn,"->",tn,"dtype",s.x.dtype,"->",t.x.dtype,"vals",okv,"ns",okn)
            except Exception as e:
                print(cls.__name__,dt,sn,"->",tn,"FAIL",type(e).__name__,str(e)[:100])
        try:
            t=s.to_numpy()
            if str(t.x.dtype)!=str(s.x.dtype).split(".")[-1]: print(cls.__name__,dt,sn,"to_numpy dtype",s.x.dtype,"->",t.x.dtype)
        except Exception as e:
            print(cls.__name__,dt,sn,"to_numpy FAIL",type(e).__name__,str(e)[:100])
