import sys; sys.path.insert(0,"/verif/spikes/probes/ep")
from common import *
import os, tempfile
from aspire import Aspire
from aspire.samples import Samples
dims=2
ll,lp=make(dims)
d=tempfile.mkdtemp(); f=os.path.join(d,"r.h5")
a=Aspire(log_likelihood=ll,log_prior=lp,dims=dims,parameters=["a","b"],flow_backend="verifstub",xp=np_xp,sigma=3.0,seed=5,periodic_parameters=["b"],prior_bounds={"a":[-10,10],"b":[-10,10]})
a.fit(Samples(np.random.default_rng(0).normal(0,3,size=(100,2))),checkpoint_path=f)
r=Aspire.resume_from_file(f,log_likelihood=ll,log_prior=lp)
print("orig flow_kwargs",a.flow_kwargs,"resumed",r.flow_kwargs)
print("periodic",a.periodic_parameters,r.periodic_parameters,"bounds",r.prior_bounds)
