from common import *
import pickle, copy
from aspire.samplers.smc.minipcn import MiniPCNSMC
dims=2
def run(resume=None, ckevery=1, kw=None, flowseed=0):
    ll,lp=make(dims)
    s=MiniPCNSMC(ll,lp,dims,GaussFlow(dims,seed=flowseed),np_xp,parameters=["a","b"])
    ck=[]
    kw=kw or {}
    out=s.sample(40,rng=np.random.default_rng(1),sampler_kwargs=dict(n_steps=2),checkpoint_callback=lambda st: ck.append(pickle.dumps(st)),checkpoint_every=ckevery,resume_from=resume,**kw)
    return s,out,ck
for kw in [dict(adaptive=True), dict(adaptive=True,max_n_steps=6), dict(adaptive=False,n_steps=5), dict(adaptive=True,n_final_samples=60)]:
    s,out,ck=run(kw=kw)
    print("REF",kw,"betas",np.round(s.history.beta,4),"logZ",float(out.log_evidence),"nhist",len(s.history.sample_history))
    for i,c in enumerate(ck):
        s2,out2,ck2=run(resume=c,kw=kw)
        same_b = s2.history.beta==s.history.beta
        print("  resume@ck",i,"it",pickle.loads(c)["iteration"],"betas same",same_b,"logZ same",float(out2.log_evidence)==float(out.log_evidence),"x same",np.array_equal(out2.x,out.x),"nhist",len(s2.history.sample_history), "betas", np.round(s2.history.beta,4) if not same_b else "")
