from common import *
import time, os, tempfile, h5py
t=time.time()
from aspire import Aspire
from aspire.samples import Samples
from aspire.utils import AspireFile
dims=2
ll,lp=make(dims)
rng=np.random.default_rng(0)
a=Aspire(log_likelihood=ll,log_prior=lp,dims=dims,parameters=["a","b"],prior_bounds={"a":[-10,10],"b":[-10,10]},flow_backend="zuko",dtype="float64", periodic_parameters=None)
t=time.time()
import array_api_compat.torch as txp
a.fit(Samples(rng.normal(1,0.5,size=(200,dims)),xp=txp,dtype="float64"),n_epochs=2)
print("fit time",time.time()-t)
d=tempfile.mkdtemp(); f=os.path.join(d,"run.h5")
t=time.time()
out=a.sample_posterior(n_samples=30,sampler="importance",checkpoint_path=f)
print("sample time",time.time()-t, "dtype", out.x.dtype)
c0=a.config_dict()
r=Aspire.resume_from_file(f,log_likelihood=ll,log_prior=lp)
c1=r.config_dict(include_sampler_config=False)
for k in c0:
    if k=="sampler_config": continue
    if str(c0[k])!=str(c1.get(k)): print("DIFF",k,c0[k],"->",c1.get(k))
print("dtype orig",a.dtype,"resumed",r.dtype)
with h5py.File(f) as h: print(list(h.keys()), list(h["aspire_config"].keys()))
t=time.time()
out2=r.sample_posterior()
print("resumed sample",len(out2.x),out2.x.dtype,time.time()-t)
