import numpy as np, math, warnings
warnings.filterwarnings("ignore")
from aspire.samples import Samples, SMCSamples, BaseSamples
# C06 fixed schedule float accumulation
for n in [3,5,7,10,20,49,100]:
    b=0.0; it=0
    step=1/n
    while True:
        it+=1
        b+=step
        if b>=1.0: b=1.0
        if b==1.0: break
    print("n_steps",n,"iterations",it)
# C02 extreme log weights
N=5
ll=np.array([1e5,1e5-1,1e5-2,1e5-3,1e5-4.])
s=Samples(np.zeros((N,1)),log_likelihood=ll,log_prior=np.zeros(N),log_q=np.zeros(N))
print("logZ",s.log_evidence,"err",s.log_evidence_error,"ess",s.effective_sample_size, "evidence",s.evidence,s.evidence_error)
s=Samples(np.zeros((N,1)),log_likelihood=-ll,log_prior=np.zeros(N),log_q=np.zeros(N))
print("logZ",s.log_evidence,"err",s.log_evidence_error,"ess",s.effective_sample_size)
# -inf subset
ll2=np.array([0.,-np.inf,-1,-np.inf,-2])
s=Samples(np.zeros((N,1)),log_likelihood=ll2,log_prior=np.zeros(N),log_q=np.zeros(N))
print("logZ",s.log_evidence,"err",s.log_evidence_error,"ess",s.effective_sample_size)
